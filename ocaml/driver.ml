(* Correspondence driver: reads one request per line, `FUNC sexp...`, prints one
   reply line. S-expressions: atoms are decimal integers or bare words; strings
   are lists of decimal code points. *)
module SL = Stdlib.List
module SS = Stdlib.String
open BinNums
open Datatypes
open Base
open Teletype
open XmlLex
open XmlTree
open NsTable
open Dom
open Construct
open EasyList
open UserField
open Package
open ParseSites
open Doc

type sx = A of string | L of sx list

let tokenize (s : string) : string list =
  let toks = ref [] and buf = Buffer.create 16 in
  let flush () = if Buffer.length buf > 0 then (toks := Buffer.contents buf :: !toks; Buffer.clear buf) in
  SS.iter (fun c ->
    match c with
    | '(' | ')' -> flush (); toks := SS.make 1 c :: !toks
    | ' ' | '\t' | '\n' | '\r' -> flush ()
    | c -> Buffer.add_char buf c) s;
  flush (); SL.rev !toks

let parse (toks : string list) : sx list =
  let rec go toks acc =
    match toks with
    | [] -> (SL.rev acc, [])
    | ")" :: r -> (SL.rev acc, r)
    | "(" :: r -> let (l, r') = go r [] in go r' (L l :: acc)
    | a :: r -> go r (A a :: acc)
  in fst (go toks [])

let rec show (x : sx) : string =
  match x with
  | A a -> a
  | L l -> "(" ^ SS.concat " " (SL.map show l) ^ ")"

(* numbers *)
let rec pos_of_int (i : int) : positive =
  if i = 1 then Coq_xH else if i land 1 = 0 then Coq_xO (pos_of_int (i lsr 1)) else Coq_xI (pos_of_int (i lsr 1))
let n_of_int (i : int) : coq_N = if i = 0 then N0 else Npos (pos_of_int i)
let rec int_of_pos (p : positive) : int =
  match p with Coq_xH -> 1 | Coq_xO q -> 2 * int_of_pos q | Coq_xI q -> 2 * int_of_pos q + 1
let int_of_n (x : coq_N) : int = match x with N0 -> 0 | Npos p -> int_of_pos p
let rec nat_of_int (i : int) : nat = if i <= 0 then O else S (nat_of_int (i - 1))
let rec int_of_nat (x : nat) : int = match x with O -> 0 | S y -> 1 + int_of_nat y

let n_of_sx = function A a -> n_of_int (int_of_string a) | _ -> failwith "n_of_sx"
let int_of_sx = function A a -> int_of_string a | _ -> failwith "int_of_sx"
let bool_of_sx = function A "1" | A "true" -> true | A _ -> false | _ -> failwith "bool_of_sx"
let str_of_sx = function L l -> SL.map n_of_sx l | _ -> failwith "str_of_sx"
let list_of_sx f = function L l -> SL.map f l | _ -> failwith "list_of_sx"
let sx_of_n x = A (string_of_int (int_of_n x))
let sx_of_str s = L (SL.map sx_of_n s)
let sx_of_bool b = A (if b then "1" else "0")
let sx_of_nat x = A (string_of_int (int_of_nat x))
let sx_of_opt f = function None -> A "None" | Some x -> L [A "Some"; f x]
let opt_of_sx f = function A "None" -> None | L [A "Some"; x] -> Some (f x) | _ -> failwith "opt_of_sx"

let sx_of_exn (e : Base.exn) : sx =
  A (match e with
     | IllegalChild -> "IllegalChild" | IllegalText -> "IllegalText"
     | AttributeErr -> "AttributeError" | ValueErr -> "ValueError"
     | NotFoundErr -> "NotFoundErr" | HierarchyErr -> "HierarchyRequestErr"
     | AssertionErr -> "AssertionError" | KeyErr -> "KeyError"
     | IndexErr -> "IndexError" | TypeErr -> "TypeError")
let sx_of_result f = function Ok a -> L [A "Ok"; f a] | Raise e -> L [A "Raise"; sx_of_exn e]

(* teletype *)
let rec sx_of_tnode (t : tnode) : sx =
  match t with
  | TText s -> L [A "T"; sx_of_str s]
  | TCData s -> L [A "C"; sx_of_str s]
  | TS c -> L [A "S"; sx_of_opt sx_of_nat c]
  | TTab -> A "TAB"
  | TLineBreak -> A "LB"
  | TOther k -> L (A "E" :: SL.map sx_of_tnode k)
let rec tnode_of_sx (x : sx) : tnode =
  match x with
  | L [A "T"; s] -> TText (str_of_sx s)
  | L [A "C"; s] -> TCData (str_of_sx s)
  | L [A "S"; c] -> TS (opt_of_sx (fun a -> nat_of_int (int_of_sx a)) c)
  | A "TAB" -> TTab
  | A "LB" -> TLineBreak
  | L (A "E" :: k) -> TOther (SL.map tnode_of_sx k)
  | _ -> failwith "tnode_of_sx"

(* xml trees *)
let sx_of_qname (q : (coq_N list * coq_N list)) : sx = L [sx_of_str (fst q); sx_of_str (snd q)]
let qname_of_sx = function L [a; b] -> (str_of_sx a, str_of_sx b) | _ -> failwith "qname_of_sx"
let rec sx_of_node (t : node) : sx =
  match t with
  | TextN s -> L [A "T"; sx_of_str s]
  | CDataN s -> L [A "C"; sx_of_str s]
  | Elem (q, atts, kids) ->
      L [A "E"; sx_of_qname q; L (SL.map (fun (aq, v) -> L [sx_of_qname aq; sx_of_str v]) atts); L (SL.map sx_of_node kids)]
let rec node_of_sx (x : sx) : node =
  match x with
  | L [A "T"; s] -> TextN (str_of_sx s)
  | L [A "C"; s] -> CDataN (str_of_sx s)
  | L [A "E"; q; L atts; L kids] ->
      Elem (qname_of_sx q, SL.map (function L [aq; v] -> (qname_of_sx aq, str_of_sx v) | _ -> failwith "att") atts, SL.map node_of_sx kids)
  | _ -> failwith "node_of_sx"
let env_of_sx = function L l -> SL.map (function L [a; b] -> (str_of_sx a, str_of_sx b) | _ -> failwith "env") l | _ -> failwith "env"
let sx_of_tok (t : tok) : sx =
  let atts a = L (SL.map (fun (n, v) -> L [sx_of_str n; sx_of_str v]) a) in
  match t with
  | TkStart (n, a) -> L [A "S"; sx_of_str n; atts a]
  | TkEmpty (n, a) -> L [A "M"; sx_of_str n; atts a]
  | TkEnd n -> L [A "N"; sx_of_str n]
  | TkChars s -> L [A "T"; sx_of_str s]

(* DOM heap *)
let cur_heap : heap option ref = ref None
let sx_of_idopt = function None -> A "N" | Some i -> A (string_of_int (int_of_nat i))
let idopt_of_sx = function A "N" -> None | A i -> Some (nat_of_int (int_of_string i)) | _ -> failwith "idopt"
let nat_of_sx x = nat_of_int (int_of_sx x)
let nrec_of_sx = function
  | L [k; par; L ks; pv; nx; ow; sn] ->
      { kind = (match k with A "T" -> KText | A "C" -> KCData | L [A "E"; q] -> KElem (nat_of_sx q) | _ -> failwith "kind");
        parent = idopt_of_sx par; kids = SL.map nat_of_sx ks; prev = idopt_of_sx pv; next = idopt_of_sx nx;
        owner = bool_of_sx ow; sname = idopt_of_sx sn }
  | _ -> failwith "nrec"
let sx_of_nrec (r : nrec) : sx =
  L [ (match r.kind with KText -> A "T" | KCData -> A "C" | KElem q -> L [A "E"; sx_of_nat q]);
      sx_of_idopt r.parent; L (SL.map sx_of_nat r.kids); sx_of_idopt r.prev; sx_of_idopt r.next;
      sx_of_bool r.owner; sx_of_idopt r.sname ]
(* the heap is built by the model's own DomCheck.lheap from the list of records, so that the checkers of DomCheck (proved
   sound in proofs/DomCheckProofs.v) speak about exactly the heap the steps start from *)
let heap_parts_of_sx = function
  | L [L recs; L ed; L sd] ->
      (SL.map nrec_of_sx recs,
       SL.map (function L [q; L l] -> (nat_of_sx q, SL.map nat_of_sx l) | _ -> failwith "edict") ed,
       SL.map (function L [n; i] -> (nat_of_sx n, nat_of_sx i) | _ -> failwith "sdict") sd)
  | _ -> failwith "heap"
let heap_of_sx x = let (l, ed, sd) = heap_parts_of_sx x in DomCheck.lheap l ed sd
let sx_of_heap (h : heap) : sx =
  let n = int_of_nat h.alloc in
  L [ L (SL.init n (fun i -> sx_of_nrec (h.nodes (nat_of_int i))));
      L (SL.map (fun (q, l) -> L [sx_of_nat q; L (SL.map sx_of_nat l)]) h.edict);
      L (SL.map (fun (nm, i) -> L [sx_of_nat nm; sx_of_nat i]) h.sdict) ]
let op_of_sx = function
  | L [A "append"; p; c] -> OAppend (nat_of_sx p, nat_of_sx c)
  | L [A "insert"; p; c; r] -> OInsert (nat_of_sx p, nat_of_sx c, idopt_of_sx r)
  | L [A "remove"; p; c] -> ORemove (nat_of_sx p, nat_of_sx c)
  | L [A "addelement"; p; c; a] -> OAddElement (nat_of_sx p, nat_of_sx c, bool_of_sx a)
  | L [A "addtext"; p; a; e; cd] -> OAddText (nat_of_sx p, bool_of_sx a, bool_of_sx e, bool_of_sx cd)
  | _ -> failwith "op"

let outcome_name = function Grammar.Accepted -> "Accepted" | Grammar.IllegalChildErr -> "IllegalChild" | Grammar.IllegalTextErr -> "IllegalText" | Grammar.AttributeErr -> "AttributeError" | Grammar.ValueErr -> "ValueError"

let dispatch (f : string) (args : sx list) : sx =
  match f, args with
  | "tt_encode", [s] -> L (SL.map sx_of_tnode (Teletype.encode (str_of_sx s)))
  | "tt_extract", [k] -> sx_of_str (Teletype.extract (list_of_sx tnode_of_sx k))
  | "tt_reparse", [k] -> L (SL.map sx_of_tnode (Teletype.reparse (list_of_sx tnode_of_sx k)))
  | "tt_checked", [al; k; s] ->
      let al = (match al with
                | L [a; b; c; d] -> { a_text = bool_of_sx a; a_s = bool_of_sx b; a_tab = bool_of_sx c; a_lb = bool_of_sx d }
                | _ -> failwith "allows") in
      sx_of_result (fun l -> L (SL.map sx_of_tnode l))
        (Teletype.add_text_checked al (list_of_sx tnode_of_sx k) (str_of_sx s))
  | "xp_text", [s] -> sx_of_str (Inst.i_text_toXml (str_of_sx s))
  | "xp_attr", [s] -> sx_of_str (Inst.i_quoteattr (str_of_sx s))
  | "xp_cdata", [s] -> sx_of_str (Inst.i_cdata_toXml (str_of_sx s))
  | "xp_node", [env; l0; t] -> sx_of_str (Inst.i_node_toXml (env_of_sx env) (bool_of_sx l0) (node_of_sx t))
  | "xp_open", [env; l0; q; L atts] ->
      sx_of_str (Inst.i_write_open_tag (env_of_sx env) (bool_of_sx l0) (qname_of_sx q)
                   (SL.map (function L [aq; v] -> (qname_of_sx aq, str_of_sx v) | _ -> failwith "att") atts))
  | "xp_close", [env; q] -> sx_of_str (XmlTree.write_close_tag (env_of_sx env) (qname_of_sx q))
  | "canon", [t] -> sx_of_node (Inst.i_canon (node_of_sx t))
  | "xml_parse", [s] -> sx_of_opt sx_of_node (Inst.i_xml_parse (str_of_sx s))
  | "xml_lex", [s] -> sx_of_opt (fun l -> L (SL.map sx_of_tok l)) (Inst.i_lex (str_of_sx s))
  | "ns_run", [d; n; L ops] ->
      let st0 = { nd = env_of_sx d; nsp = env_of_sx n } in
      let st = SL.fold_left (fun st o ->
        match o with
        | L [A "P"; ns] -> NsTable.ns_step st (OpPrefix (str_of_sx ns))
        | L [A "S"; a] -> NsTable.ns_step st (OpSavePrefix (str_of_sx a))
        | _ -> failwith "nsop") st0 ops in
      let tab t = L (SL.map (fun (a, b) -> L [sx_of_str a; sx_of_str b]) t) in
      L [tab st.nd; tab st.nsp]
  | "ns_prefix", [d; n; ns] ->
      let st0 = { nd = env_of_sx d; nsp = env_of_sx n } in
      sx_of_str (snd (NsTable.get_nsprefix st0 (str_of_sx ns)))
  | "dom_init", [h] ->
      let (l, ed, sd) = heap_parts_of_sx h in
      cur_heap := Some (DomCheck.lheap l ed sd);
      L [sx_of_bool (DomCheck.wf_ok l); sx_of_bool (DomCheck.idx_ok (nat_of_int 0) l ed sd); sx_of_bool (DomCheck.comp_ok l sd)]
  | "dom_step", [o] ->
      (match !cur_heap with
       | None -> failwith "no heap"
       | Some h ->
           let o' = op_of_sx o in
           let r = Dom.step h o' in
           let h' = Dom.heap_of r in
           cur_heap := Some h';
           L [ (match r with ROk _ -> A "Ok" | RRaise (e, _) -> L [A "Raise"; sx_of_exn e]); sx_of_heap h';
               sx_of_bool (DomCheck.op_okb h o' && DomCheck.keeps_topb (nat_of_int 0) o') ])
  | "dom_construct", [q; sn; L steps; chk; req; par] ->
      (match !cur_heap with
       | None -> failwith "no heap"
       | Some h ->
           let exn_of = function
             | A "IllegalChild" -> IllegalChild | A "IllegalText" -> IllegalText | A "AttributeError" -> AttributeErr
             | A "ValueError" -> ValueErr | _ -> failwith "exn" in
           let steps' = SL.map (function A "ok" -> None | e -> Some (exn_of e)) steps in
           let par' = (match par with A "N" -> None | L [p; a] -> Some (nat_of_sx p, bool_of_sx a) | _ -> failwith "par") in
           let r = Construct.construct h (nat_of_sx q) (idopt_of_sx sn) steps' (bool_of_sx chk) (bool_of_sx req) par' in
           let h' = Dom.heap_of r in
           cur_heap := Some h';
           L [ (match r with ROk _ -> A "Ok" | RRaise (e, _) -> L [A "Raise"; sx_of_exn e]); sx_of_heap h' ])
  | "el_list", [L specs; sa] | "el_string", [L specs; sa] when f = "el_list" ->
      sx_of_result (fun ls -> L (SL.map (fun l ->
        L [ sx_of_nat l.lv_level;
            (match l.lv_kind with
             | LNumber (fm, pre, suf, disp) -> L [A "num"; sx_of_n fm; sx_of_str pre; sx_of_str suf; sx_of_nat disp]
             | LBullet c -> L [A "bul"; sx_of_n c]);
            sx_of_nat l.lv_factor ]) ls))
        (EasyList.style_from_list (SL.map str_of_sx specs) (bool_of_sx sa))
  | "el_fromstring", [s; dl; sa] ->
      sx_of_result (fun ls -> L (SL.map (fun l ->
        L [ sx_of_nat l.lv_level;
            (match l.lv_kind with
             | LNumber (fm, pre, suf, disp) -> L [A "num"; sx_of_n fm; sx_of_str pre; sx_of_str suf; sx_of_nat disp]
             | LBullet c -> L [A "bul"; sx_of_n c]);
            sx_of_nat l.lv_factor ]) ls))
        (EasyList.style_from_string (str_of_sx s) (n_of_sx dl) (bool_of_sx sa))
  | "el_css", [s] -> sx_of_opt (fun (a, b) -> L [sx_of_str a; sx_of_str b]) (EasyList.css_split (str_of_sx s))
  | "uf_update", [L data; L ds] ->
      let pairs l = SL.map (function L [a; b] -> (nat_of_sx a, str_of_sx b) | _ -> failwith "pair") l in
      let decl_of = function L [n; t; L v; L o] -> { d_name = str_of_sx n; d_type = str_of_sx t; d_vals = pairs v; d_other = pairs o } | _ -> failwith "decl" in
      let data' = SL.map (function L [a; b] -> (str_of_sx a, str_of_sx b) | _ -> failwith "data") data in
      sx_of_result (fun ds' -> L (SL.map (fun (r : (coq_N list * coq_N list) * coq_N list option) ->
          let ((n, t), v) = r in L [sx_of_str n; sx_of_str t; sx_of_opt sx_of_str v])
        (UserField.list_fields_and_values None ds'))) (UserField.update data' (SL.map decl_of ds))
  | ("pkg_save" | "pkg_premises"), [t] ->
      let rec odoc_of = function
        | L [mt; fo; hs; L pics; L kids] ->
            ODoc (str_of_sx mt, str_of_sx fo, bool_of_sx hs,
                  SL.map (function L [n; dt; m] -> { pc_name = str_of_sx n; pc_data = str_of_sx dt; pc_mt = str_of_sx m } | _ -> failwith "pic") pics,
                  SL.map odoc_of kids)
        | _ -> failwith "odoc" in
      let top = (match t with
        | L [root; th; L ex] ->
            { t_root = odoc_of root; t_thumb = opt_of_sx (function L [b; m] -> (str_of_sx b, str_of_sx m) | _ -> failwith "thumb") th;
              t_extras = SL.map (function L [n; m; c] -> ((str_of_sx n, str_of_sx m), opt_of_sx str_of_sx c) | _ -> failwith "extra") ex }
        | _ -> failwith "topdoc") in
      if f = "pkg_premises" then
        L [sx_of_bool (PackageCheck.pairs_distinct top); sx_of_bool (PackageCheck.shape_ok (PackageCheck.core top)); sx_of_bool (PackageCheck.extras_apart top)]
      else
      let (es, man) = Package.save_m top in
      let pl = function
        | DBytes b -> L [A "B"; sx_of_str b]
        | DPart (p, fo) -> L [A (match p with PStyles -> "styles" | PContent -> "content" | PSettings -> "settings" | PMeta -> "meta"); sx_of_str fo]
        | DManifest -> A "manifest" in
      L [ L (SL.map (fun e -> L [sx_of_str e.e_name; sx_of_bool e.e_stored; pl e.e_data]) es);
          L (SL.map (fun (a, b) -> L [sx_of_str a; sx_of_str b]) man) ]
  | "pkg_addobject", [pf; L taken; nm] ->
      let (c, r) = Package.add_object (str_of_sx pf) (SL.map str_of_sx taken) (ODoc ([], [], false, [], [])) (opt_of_sx str_of_sx nm) in
      L [sx_of_str (o_folder c); sx_of_str r]
  | "pkg_classify", [L man; L fo; p] ->
      let m = SL.map (function L [a; b] -> (str_of_sx a, str_of_sx b) | _ -> failwith "man") man in
      let fo = SL.map str_of_sx fo in
      A (match Package.classify (fun q -> SL.mem q fo) m (str_of_sx p) with
         | IsPicture -> "picture" | IsThumbnail -> "thumbnail" | IsRootPart -> "rootpart" | IsRootEntry -> "rootentry"
         | IsObject -> "object" | IsObjectPart -> "objectpart" | IsExtra -> "extra")
  | "pkg_load_reads", [L man; L fo] ->
      let m = SL.map (function L [a; b] -> (str_of_sx a, str_of_sx b) | _ -> failwith "man") man in
      let fo = SL.map str_of_sx fo in
      L (SL.map sx_of_str (ParseSites.load_reads (fun q -> SL.mem q fo) m))
  | "doc_render", [A kind; env; L [mime; me; sc; ff; se; st; au; ma; bo]] ->
      let d = { d_mime = str_of_sx mime; d_meta = node_of_sx me; d_scripts = node_of_sx sc; d_ffd = node_of_sx ff; d_settings = node_of_sx se;
                d_styles = node_of_sx st; d_auto = node_of_sx au; d_master = node_of_sx ma; d_body = node_of_sx bo } in
      let e = env_of_sx env in
      (match kind with
       | "content" -> sx_of_str (Inst.i_contentxml e d)
       | "styles" -> sx_of_str (Inst.i_stylesxml e d)
       | "settings" -> sx_of_str (Inst.i_settingsxml e d)
       | "meta" -> let (d', s) = Inst.i_metaxml e d in L [sx_of_node d'.d_meta; sx_of_str s]
       | "xml" -> let (d', s) = Inst.i_flatxml e d in L [sx_of_node d'.d_meta; sx_of_str s]
       | _ -> failwith "render kind")
  | "doc_used", [L segs; au] -> L (SL.map sx_of_node (Inst.i_used_auto_styles (SL.map node_of_sx segs) (node_of_sx au)))
  | "doc_load_xml", [mime; se; me; co; st] ->
      let part x = match opt_of_sx str_of_sx x with
        | None -> None
        | Some s -> (match Inst.i_xml_parse s with Some t -> Some t | None -> failwith "part does not parse") in
      let d = LoadInst.i_load_doc (str_of_sx mime) (part se) (part me) (part co) (part st) in
      L [sx_of_str d.d_mime; sx_of_node d.d_meta; sx_of_node d.d_scripts; sx_of_node d.d_ffd; sx_of_node d.d_settings;
         sx_of_node d.d_styles; sx_of_node d.d_auto; sx_of_node d.d_master; sx_of_node d.d_body]
  | "cv_batch", [f; j; L vals] ->
      let f = opt_of_sx n_of_sx f and j = n_of_sx j in
      L (SL.map (fun v -> let s = str_of_sx v in
                   L [(match ConvInst.i_convert f s with Convert.COk r -> L [A "Ok"; sx_of_str r] | Convert.CValueError -> A "ValueError");
                      A (if ConvInst.i_valid j s then "1" else "0")]) vals)
  | "h_escape", [v] -> sx_of_str (Html.h_escape (str_of_sx v))
  | "h_quoteattr", [v] -> sx_of_str (Html.h_quoteattr (str_of_sx v))
  | "h_opentag", [t; L atts; b] -> sx_of_str (Html.h_opentag (str_of_sx t) (SL.map (function L [k; v] -> (str_of_sx k, str_of_sx v) | _ -> failwith "att") atts) (int_of_sx b <> 0))
  | "h_closetag", [t; b] -> sx_of_str (Html.h_closetag (str_of_sx t) (int_of_sx b <> 0))
  | "h_emptytag", [t; L atts] -> sx_of_str (Html.h_emptytag (str_of_sx t) (SL.map (function L [k; v] -> (str_of_sx k, str_of_sx v) | _ -> failwith "att") atts))
  | "fix_part", [v] -> let s = str_of_sx v in L [sx_of_str (FixPart.fix_part s); sx_of_nat (FixPart.root_start s); sx_of_nat (FixPart.root_begin s); sx_of_nat (FixPart.root_stop s); sx_of_bool (FixPart.is_odf_part s)]
  | "h_doc", [L evs] ->
      let atts l = SL.map (function L [k; v] -> (str_of_sx k, str_of_sx v) | _ -> failwith "att") l in
      let ev = function
        | L [A "open"; t; L a; b] -> HtmlDoc.HOpen (str_of_sx t, atts a, int_of_sx b <> 0)
        | L [A "close"; t; b] -> HtmlDoc.HClose (str_of_sx t, int_of_sx b <> 0)
        | L [A "empty"; t; L a] -> HtmlDoc.HEmpty (str_of_sx t, atts a)
        | L [A "data"; d] -> HtmlDoc.HData (str_of_sx d)
        | L [A "nbsp"] -> HtmlDoc.HNbsp
        | L [A "css"; d] -> HtmlDoc.HCss (str_of_sx d)
        | _ -> failwith "hev" in
      let es = SL.map ev evs in
      L [sx_of_str (HtmlDoc.h_render es); sx_of_bool (HtmlDoc.wellnested es [] false); sx_of_bool (SL.for_all HtmlDoc.ev_ok es)]
  | "ls_load", [L es] ->
      let elem_of_sx = function
        | L [d; L refs] -> { LoadStyles.le_def = opt_of_sx str_of_sx d;
                             LoadStyles.le_refs = SL.map (function L [i; L ns] -> (nat_of_int (int_of_sx i), SL.map str_of_sx ns) | _ -> failwith "ref") refs }
        | _ -> failwith "lelem" in
      let sx_of_elem (e : LoadStyles.lelem) =
        L [sx_of_opt sx_of_str e.LoadStyles.le_def; L (SL.map (fun (i, ns) -> L [sx_of_nat i; L (SL.map sx_of_str ns)]) e.LoadStyles.le_refs)] in
      L (SL.map sx_of_elem (LoadStyles.load_all (SL.map elem_of_sx es)))
  | "ls_newname", [L names; n] -> sx_of_str (LoadStyles.new_name (SL.map str_of_sx names) (str_of_sx n))
  | "gr_selems", [] -> L (SL.map sx_of_n GrammarInst.selems)
  | "gr_children", [p; chk] ->
      let p = n_of_sx p and chk = (int_of_sx chk <> 0) in
      L (SL.map (fun c -> A (outcome_name (GrammarInst.i_add_element p c chk))) GrammarInst.selems)
  | "gr_text", [chk] -> let chk = (int_of_sx chk <> 0) in L (SL.map (fun p -> A (outcome_name (GrammarInst.i_add_text p chk))) GrammarInst.selems)
  | "gr_attr", [el; L kws; chk] ->
      let el = n_of_sx el and chk = (int_of_sx chk <> 0) in
      L (SL.map (fun kw -> A (outcome_name (GrammarInst.i_set_attribute el (str_of_sx kw) chk))) kws)
  | "gr_construct", [el; L given; chk] ->
      A (outcome_name (GrammarInst.i_construct (n_of_sx el) (SL.map n_of_sx given) (int_of_sx chk <> 0)))
  | _ -> failwith ("unknown function " ^ f)

let () =
  try
    while true do
      let line = input_line stdin in
      (match parse (tokenize line) with
       | A f :: args ->
           (try print_string (show (dispatch f args)) with
            | Failure m -> print_string ("(ERROR " ^ SS.escaped m ^ ")")
            | Stack_overflow -> print_string "(ERROR stack_overflow)"
            | Not_found -> print_string "(ERROR not_found)")
       | _ -> print_string "(ERROR empty)");
      print_newline ()
    done
  with End_of_file -> ()
